//! C01 — client-side emission ("... blocking or async, client side or server side ...
//! produces byte-identical output").
//!
//! The same logical request is issued through every request-emitting API of the three
//! clients — blocking `Client` over loopback TCP, `AsyncClient` and `WebSocketClient`
//! over in-memory streams — on one long-lived connection each, and the bytes the peer
//! receives are compared
//!   (a) with the layout oracle's encoding of the predicted fields, for the APIs whose
//!       fields the caller passes verbatim (`*_with_formats`), and for the JSON / BEVE
//!       helpers with the body the serializer produces;
//!   (b) across the three clients, byte for byte apart from the request id (each client
//!       numbers its own requests): one logical message, one encoding.
//! Nothing about the *response* handling is looked at here (C04/C06).
#![allow(dead_code)]

use super::local::Bad;
use crate::clients::{self, Cli, Conn, Kind, Peer};
use crate::ctx::Tier;
use crate::frames::{self, Frame, HEADER, Hdr, SPEC};
use crate::memstream;
use futures_util::StreamExt;
use serde_json::{Value, json};
use std::io::{Read, Write};
use std::time::Duration;
use tokio_tungstenite::tungstenite::Message as WsMessage;

const T: Duration = Duration::from_secs(3600);

#[derive(Clone, Debug)]
pub enum Call {
    WithFormats { notify: bool, timeout: bool, path: String, qf: u16, body: Option<Vec<u8>>, bf: u16 },
    Json { notify: bool, timeout: bool, path: String, v: Value },
    TypedJson { notify: bool, path: String, v: Value },
    TypedBeve { notify: bool, path: String, v: Value },
    Message { path: String, timeout: bool },
    RegistryRead { path: String },
    RegistryWrite { path: String, v: Value },
    RegistryCall { path: String, v: Value },
}

impl Call {
    fn route(&self) -> &'static str {
        match self {
            Call::WithFormats { notify: false, timeout: false, .. } => "call_with_formats",
            Call::WithFormats { notify: false, timeout: true, .. } => "call_with_formats_and_timeout",
            Call::WithFormats { notify: true, .. } => "notify_with_formats",
            Call::Json { notify: false, timeout: false, .. } => "call_json",
            Call::Json { notify: false, timeout: true, .. } => "call_json_with_timeout",
            Call::Json { notify: true, .. } => "notify_json",
            Call::TypedJson { notify: false, .. } => "call_typed_json",
            Call::TypedJson { notify: true, .. } => "notify_typed_json",
            Call::TypedBeve { notify: false, .. } => "call_typed_beve",
            Call::TypedBeve { notify: true, .. } => "notify_typed_beve",
            Call::Message { timeout: false, .. } => "call_message",
            Call::Message { timeout: true, .. } => "call_message_with_timeout",
            Call::RegistryRead { .. } => "registry_read",
            Call::RegistryWrite { .. } => "registry_write_json",
            Call::RegistryCall { .. } => "registry_call_json",
        }
    }
    fn is_notify(&self) -> bool {
        matches!(self, Call::WithFormats { notify: true, .. } | Call::Json { notify: true, .. } | Call::TypedJson { notify: true, .. } | Call::TypedBeve { notify: true, .. })
    }
    pub fn to_json(&self) -> Value {
        match self {
            Call::WithFormats { notify, timeout, path, qf, body, bf } => json!({"api": self.route(), "notify": notify, "timeout": timeout, "path_len": path.len(), "path": short(path), "query_format": qf, "body_format": bf, "body": body.as_ref().map(|b| b.len())}),
            Call::Json { path, v, .. } | Call::TypedJson { path, v, .. } | Call::TypedBeve { path, v, .. } | Call::RegistryWrite { path, v } | Call::RegistryCall { path, v } => {
                json!({"api": self.route(), "path": short(path), "path_len": path.len(), "value": v})
            }
            Call::Message { path, .. } | Call::RegistryRead { path } => json!({"api": self.route(), "path": short(path), "path_len": path.len()}),
        }
    }
    /// Fields the oracle can predict: (notify, query_format, body_format, query, body); None = only compared across clients.
    fn predicted(&self) -> Option<(u8, u16, u16, Vec<u8>, Vec<u8>)> {
        match self {
            Call::WithFormats { notify, path, qf, body, bf, .. } => Some((*notify as u8, *qf, *bf, path.as_bytes().to_vec(), body.clone().unwrap_or_default())),
            Call::Json { notify, path, v, .. } | Call::TypedJson { notify, path, v } => {
                Some((*notify as u8, 1, frames::FMT_JSON, path.as_bytes().to_vec(), serde_json::to_vec(v).ok()?))
            }
            Call::TypedBeve { notify, path, v } => Some((*notify as u8, 1, frames::FMT_BEVE, path.as_bytes().to_vec(), beve::to_vec(v).ok()?)),
            Call::RegistryWrite { path, v } | Call::RegistryCall { path, v } => Some((0, 1, frames::FMT_JSON, path.as_bytes().to_vec(), serde_json::to_vec(v).ok()?)),
            // an empty-body read: the body format code of a body-less helper request is the helper's choice
            Call::Message { .. } | Call::RegistryRead { .. } => None,
        }
    }
}

fn short(p: &str) -> String {
    if p.len() > 24 { format!("{}...", &p[..24]) } else { p.to_string() }
}

pub fn calls(tier: Tier) -> Vec<Call> {
    let long = format!("/{}", "seg/".repeat(tier.pick(80, 1100)));
    let paths = ["/p".to_string(), "/a/b~1c/~0".to_string(), long];
    let bodies: Vec<Option<Vec<u8>>> = vec![
        None,
        Some(Vec::new()),
        Some(vec![0x5a]),
        Some((0..5000u32).map(|i| (i * 7 + 1) as u8).collect()),
        Some((0..tier.pick(70_000u32, 300_000u32)).map(|i| (i * 13 + 5) as u8).collect()),
    ];
    let mut v = Vec::new();
    for path in &paths {
        for qf in [0u16, 1, 0x7788, 0xffff] {
            for bf in [0u16, 1, 2, 3, 0x5555, 0xffff] {
                for body in &bodies {
                    for (notify, timeout) in [(false, false), (true, false), (false, true)] {
                        if timeout && (qf != 1 || bf > 3) {
                            continue;
                        }
                        v.push(Call::WithFormats { notify, timeout, path: path.clone(), qf, body: body.clone(), bf });
                    }
                }
            }
        }
        for val in [json!(null), json!(0), json!({"a": [1, 2, {"b": "c"}]}), json!("x".repeat(9000))] {
            v.push(Call::Json { notify: false, timeout: false, path: path.clone(), v: val.clone() });
            v.push(Call::Json { notify: false, timeout: true, path: path.clone(), v: val.clone() });
            v.push(Call::Json { notify: true, timeout: false, path: path.clone(), v: val.clone() });
            v.push(Call::TypedJson { notify: false, path: path.clone(), v: val.clone() });
            v.push(Call::TypedJson { notify: true, path: path.clone(), v: val.clone() });
            v.push(Call::TypedBeve { notify: false, path: path.clone(), v: val.clone() });
            v.push(Call::TypedBeve { notify: true, path: path.clone(), v: val.clone() });
            v.push(Call::RegistryWrite { path: path.clone(), v: val.clone() });
            v.push(Call::RegistryCall { path: path.clone(), v: val.clone() });
        }
        v.push(Call::Message { path: path.clone(), timeout: false });
        v.push(Call::Message { path: path.clone(), timeout: true });
        v.push(Call::RegistryRead { path: path.clone() });
    }
    v
}

macro_rules! fire {
    ($c:expr, $call:expr, $($aw:tt)*) => {{
        let c = $c;
        match $call {
            Call::WithFormats { notify: false, timeout: false, path, qf, body, bf } => { let _ = c.call_with_formats(path, qf, body.as_deref(), bf)$($aw)*; }
            Call::WithFormats { notify: false, timeout: true, path, qf, body, bf } => { let _ = c.call_with_formats_and_timeout(path, qf, body.as_deref(), bf, T)$($aw)*; }
            Call::WithFormats { notify: true, path, qf, body, bf, .. } => { let _ = c.notify_with_formats(path, qf, body.as_deref(), bf)$($aw)*; }
            Call::Json { notify: false, timeout: false, path, v } => { let _ = c.call_json(path, &v)$($aw)*; }
            Call::Json { notify: false, timeout: true, path, v } => { let _ = c.call_json_with_timeout(path, &v, T)$($aw)*; }
            Call::Json { notify: true, path, v, .. } => { let _ = c.notify_json(path, &v)$($aw)*; }
            Call::TypedJson { notify: false, path, v } => { let _: Result<Value, _> = c.call_typed_json(path, &v)$($aw)*; }
            Call::TypedJson { notify: true, path, v } => { let _ = c.notify_typed_json(path, &v)$($aw)*; }
            Call::TypedBeve { notify: false, path, v } => { let _: Result<Value, _> = c.call_typed_beve(path, &v)$($aw)*; }
            Call::TypedBeve { notify: true, path, v } => { let _ = c.notify_typed_beve(path, &v)$($aw)*; }
            Call::Message { path, timeout: false } => { let _ = c.call_message(path)$($aw)*; }
            Call::Message { path, timeout: true } => { let _ = c.call_message_with_timeout(path, T)$($aw)*; }
            Call::RegistryRead { path } => { let _ = c.registry_read(path)$($aw)*; }
            Call::RegistryWrite { path, v } => { let _ = c.registry_write_json(path, &v)$($aw)*; }
            Call::RegistryCall { path, v } => { let _ = c.registry_call_json(path, &v)$($aw)*; }
        }
    }};
}

fn reply_bytes(id: u64) -> Vec<u8> {
    let h = Hdr { version: 1, id, query_format: 1, body_format: frames::FMT_JSON, ..Default::default() };
    Frame::new(h, b"/r", b"null").to_bytes()
}

/// One frame emitted by each tokio client for each call, in call order.
async fn capture_tokio(kind: Kind, calls: &[Call]) -> Result<Vec<Vec<u8>>, String> {
    let Conn { cli, mut peer, .. } = clients::connect(kind).await;
    let mut out = Vec::with_capacity(calls.len());
    for call in calls {
        let call2 = call.clone();
        let h = match cli.clone() {
            Cli::Async(c) => tokio::spawn(async move { fire!(&c, call2, .await) }),
            Cli::Ws(c) => tokio::spawn(async move { fire!(&c, call2, .await) }),
        };
        memstream::settle().await;
        let bytes = match &mut peer {
            Peer::Raw { ctl, .. } => ctl.a_to_b.take(),
            Peer::Ws { ws, .. } => loop {
                match tokio::time::timeout(T, ws.next()).await {
                    Ok(Some(Ok(WsMessage::Binary(b)))) => break b,
                    Ok(Some(Ok(WsMessage::Ping(_) | WsMessage::Pong(_)))) => continue,
                    other => return Err(format!("{}: no binary message for {:?}: {other:?}", kind.name(), call.to_json())),
                }
            },
        };
        if bytes.len() < HEADER {
            return Err(format!("{}: {} bytes emitted for {}", kind.name(), bytes.len(), call.to_json()));
        }
        let id = Hdr::decode_raw(&bytes).map(|h| h.id).unwrap_or(0);
        if !call.is_notify() {
            peer.send_bytes(&reply_bytes(id)).await;
        }
        match tokio::time::timeout(T, h).await {
            Ok(Ok(())) => {}
            other => return Err(format!("{}: the call did not finish for {}: {other:?}", kind.name(), call.to_json())),
        }
        out.push(bytes);
    }
    Ok(out)
}

fn capture_blocking(calls: &[Call]) -> Result<Vec<Vec<u8>>, String> {
    let listener = std::net::TcpListener::bind("127.0.0.1:0").map_err(|e| e.to_string())?;
    let addr = listener.local_addr().map_err(|e| e.to_string())?;
    let client = repe::Client::connect(addr).map_err(|e| format!("Client::connect: {e}"))?;
    let (mut s, _) = listener.accept().map_err(|e| e.to_string())?;
    s.set_read_timeout(Some(Duration::from_secs(20))).ok();
    s.set_nodelay(true).ok();
    let mut out = Vec::with_capacity(calls.len());
    for call in calls {
        let (c, call2) = (client.clone(), call.clone());
        let h = std::thread::spawn(move || fire!(&c, call2,));
        let mut hb = [0u8; HEADER];
        s.read_exact(&mut hb).map_err(|e| format!("Client: no header for {}: {e}", call.to_json()))?;
        let hd = Hdr::decode_raw(&hb).unwrap();
        // (an inconsistent header is reported by the comparison; read what the parts declare, bounded)
        let rest = (hd.query_length.min(1 << 24) + hd.body_length.min(1 << 24)) as usize;
        let mut bytes = hb.to_vec();
        bytes.resize(HEADER + rest, 0);
        s.read_exact(&mut bytes[HEADER..]).map_err(|e| format!("Client: short payload for {}: {e}", call.to_json()))?;
        if !call.is_notify() {
            s.write_all(&reply_bytes(hd.id)).map_err(|e| e.to_string())?;
        }
        h.join().map_err(|_| format!("Client: caller panicked for {}", call.to_json()))?;
        out.push(bytes);
    }
    Ok(out)
}

fn field_diff(got: &[u8], want: &[u8]) -> String {
    let regions: [(&str, usize, usize); 11] = [
        ("length", 0, 8), ("spec", 8, 10), ("version", 10, 11), ("notify", 11, 12), ("reserved", 12, 16), ("id", 16, 24),
        ("query_length", 24, 32), ("body_length", 32, 40), ("query_format", 40, 42), ("body_format", 42, 44), ("ec", 44, 48),
    ];
    for (n, a, b) in regions {
        if got.len() >= b && want.len() >= b && got[a..b] != want[a..b] {
            return n.to_string();
        }
    }
    if got.len() != want.len() { "payload-length".into() } else { "payload".into() }
}

pub struct ClientsOut {
    pub bad: Vec<(Bad, Value)>,
    pub machinery: Option<String>,
    pub calls: u64,
    pub frames_compared: u64,
    pub per_route: std::collections::BTreeMap<&'static str, u64>,
}

pub const CLIENTS: [&str; 3] = ["Client", "AsyncClient", "WebSocketClient"];

pub fn run_calls(all: &[Call]) -> ClientsOut {
    let mut out = ClientsOut { bad: Vec::new(), machinery: None, calls: all.len() as u64, frames_compared: 0, per_route: Default::default() };
    let blocking = std::thread::scope(|sc| sc.spawn(|| capture_blocking(all)).join().unwrap_or_else(|_| Err("blocking capture panicked".into())));
    let a = memstream::run_paused(capture_tokio(Kind::Async, all));
    let w = memstream::run_paused(capture_tokio(Kind::Ws, all));
    let caps = match (blocking, a, w) {
        (Ok(b), Ok(a), Ok(w)) => [b, a, w],
        (b, a, w) => {
            out.machinery = Some([b.err(), a.err(), w.err()].into_iter().flatten().collect::<Vec<_>>().join("; "));
            return out;
        }
    };
    let mut seen_keys = std::collections::BTreeSet::new();
    for (i, call) in all.iter().enumerate() {
        *out.per_route.entry(call.route()).or_insert(0) += 1;
        let case = || json!({"block": "clients", "call": call.to_json(), "index": i});
        // (a) against the layout oracle
        if let Some((notify, qf, bf, q, b)) = call.predicted() {
            for (ci, cap) in caps.iter().enumerate() {
                let id = Hdr::decode_raw(&cap[i]).map(|h| h.id).unwrap_or(0);
                let want = Frame::new(Hdr { spec: SPEC, version: 1, notify, id, query_format: qf, body_format: bf, ..Default::default() }, &q, &b).to_bytes();
                out.frames_compared += 1;
                if cap[i] != want {
                    let f = field_diff(&cap[i], &want);
                    let key = format!("C01:client-emit:{}:{}:{f}", CLIENTS[ci], call.route());
                    if seen_keys.insert(key.clone()) {
                        out.bad.push((Bad { key, what: format!("{}::{} emitted a frame that differs from the layout oracle in `{f}` for {}", CLIENTS[ci], call.route(), call.to_json()) }, case()));
                    }
                }
            }
        }
        // (b) one encoding across the clients (ids are per client)
        let norm = |b: &Vec<u8>| {
            let mut v = b.clone();
            if v.len() >= 24 {
                v[16..24].fill(0);
            }
            v
        };
        let n0 = norm(&caps[0][i]);
        for ci in 1..3 {
            out.frames_compared += 1;
            let n = norm(&caps[ci][i]);
            if n != n0 {
                let f = field_diff(&n, &n0);
                let key = format!("C01:client-emit:one-encoding:{}:{f}", call.route());
                if seen_keys.insert(key.clone()) {
                    out.bad.push((Bad { key, what: format!("{}::{r} and Client::{r} emit different bytes (`{f}`) for the same request {}", CLIENTS[ci], call.to_json(), r = call.route()) }, case()));
                }
            }
        }
    }
    out
}

pub fn run_all(tier: Tier) -> ClientsOut {
    run_calls(&calls(tier))
}

pub fn replay(case: &Value) -> Result<Vec<Bad>, String> {
    // the recorded index names the call in the quick catalogue, else in the thorough one
    let i = case["index"].as_u64().ok_or("index")? as usize;
    for tier in [Tier::Quick, Tier::Thorough] {
        let all = calls(tier);
        if let Some(c) = all.get(i) {
            if c.to_json() == case["call"] {
                let out = run_calls(std::slice::from_ref(c));
                if let Some(m) = out.machinery {
                    return Err(format!("machinery: {m}"));
                }
                return Ok(out.bad.into_iter().map(|(b, _)| b).collect());
            }
        }
    }
    Err("recorded call not found in the catalogue".into())
}
