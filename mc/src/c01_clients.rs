//! C01 — client-side emission ("... blocking or async, client side or server side ...
//! produces byte-identical output").
//!
//! The same logical request is issued through EVERY request-emitting public API of the
//! three clients — blocking `Client` over loopback TCP, `AsyncClient` and
//! `WebSocketClient` over in-memory streams — on one long-lived connection per client
//! and per sequence, and the bytes the peer receives are compared
//!   (a) with the layout oracle's encoding of the predicted fields: the fields the caller
//!       passes verbatim (`*_with_formats`, `forward_message*`), the body the serializer
//!       produces (JSON / BEVE helpers), an independently written BEVE typed-array /
//!       aligned-typed-array encoder for the numeric-slice helpers (padding rule as
//!       documented by `MessageBuilder::body_aligned_typed_slice`), and for the body-less
//!       read helpers everything but the body-format code (the helper's choice), which
//!       must be the one `Client::call_message` emits for the same path;
//!   (b) across the clients, byte for byte apart from the request id (each client
//!       numbers its own requests): one logical message, one encoding.
//! One call may emit N frames (`batch_json*`): the frames of a call are matched with the
//! entries by their (distinct) path, every frame must match the oracle for its entry and
//! the ids of one batch must be pairwise distinct. Some APIs exist only on some clients
//! (`call_typed_slice*`: not on the WebSocket client; `forward_message*`: AsyncClient only).
//!
//! STATE CARRY: all calls of a sequence share one connection, so the whole catalogue is
//! issued in several orders (catalogue order; alternating largest/smallest payload; every
//! call twice in a row, backwards; thorough: a stride permutation). The expected bytes of
//! a call never depend on what was sent before.
//! Nothing about the *response* handling is looked at here (C04/C06).
#![allow(dead_code)]

use super::local::Bad;
use crate::clients::{self, Cli, Conn, Kind, Peer};
use crate::ctx::Tier;
use crate::frames::{self, Frame, HEADER, Hdr, SPEC};
use crate::memstream;
use futures_util::StreamExt;
use serde_json::{Value, json};
use std::collections::{BTreeMap, BTreeSet};
use std::io::{Read, Write};
use std::time::Duration;
use tokio_tungstenite::tungstenite::Message as WsMessage;

const T: Duration = Duration::from_secs(3600);

// ------------------------------------------------------------------ numeric slices

#[derive(Clone, Copy, Debug, PartialEq, Eq, PartialOrd, Ord)]
pub enum SElem {
    U8,
    I16,
    F32,
    F64,
    U64,
}
pub const SELEMS: [SElem; 5] = [SElem::U8, SElem::I16, SElem::F32, SElem::F64, SElem::U64];

impl SElem {
    pub fn name(self) -> &'static str {
        match self {
            SElem::U8 => "u8",
            SElem::I16 => "i16",
            SElem::F32 => "f32",
            SElem::F64 => "f64",
            SElem::U64 => "u64",
        }
    }
    /// (BEVE typed-array class: 0 float, 1 signed, 2 unsigned; byte-count code = log2(size); size; alignment)
    fn layout(self) -> (u8, u8, usize, usize) {
        match self {
            SElem::U8 => (2, 0, 1, std::mem::align_of::<u8>()),
            SElem::I16 => (1, 1, 2, std::mem::align_of::<i16>()),
            SElem::F32 => (0, 2, 4, std::mem::align_of::<f32>()),
            SElem::F64 => (0, 3, 8, std::mem::align_of::<f64>()),
            SElem::U64 => (2, 3, 8, std::mem::align_of::<u64>()),
        }
    }
}

fn gen_u8(n: usize) -> Vec<u8> {
    (0..n).map(|i| (i * 7 + 1) as u8).collect()
}
fn gen_i16(n: usize) -> Vec<i16> {
    (0..n).map(|i| (i as i16).wrapping_mul(-7919).wrapping_add(5)).collect()
}
fn gen_f32(n: usize) -> Vec<f32> {
    (0..n).map(|i| i as f32 * 0.25 - 3.0).collect()
}
fn gen_f64(n: usize) -> Vec<f64> {
    (0..n).map(|i| i as f64 * 0.125 - 7.0).collect()
}
fn gen_u64(n: usize) -> Vec<u64> {
    (0..n).map(|i| (i as u64 + 1).wrapping_mul(0x9E37_79B9_7F4A_7C15) | 1).collect()
}

/// Bind `$d` to the deterministic data vector of `$elem` with `$n` elements.
macro_rules! with_slice {
    ($elem:expr, $n:expr, |$d:ident| $body:expr) => {
        match $elem {
            SElem::U8 => {
                let $d: Vec<u8> = gen_u8($n);
                $body
            }
            SElem::I16 => {
                let $d: Vec<i16> = gen_i16($n);
                $body
            }
            SElem::F32 => {
                let $d: Vec<f32> = gen_f32($n);
                $body
            }
            SElem::F64 => {
                let $d: Vec<f64> = gen_f64($n);
                $body
            }
            SElem::U64 => {
                let $d: Vec<u64> = gen_u64($n);
                $body
            }
        }
    };
}

/// little-endian element block
fn le_payload(e: SElem, n: usize) -> Vec<u8> {
    match e {
        SElem::U8 => gen_u8(n),
        SElem::I16 => gen_i16(n).iter().flat_map(|v| v.to_le_bytes()).collect(),
        SElem::F32 => gen_f32(n).iter().flat_map(|v| v.to_le_bytes()).collect(),
        SElem::F64 => gen_f64(n).iter().flat_map(|v| v.to_le_bytes()).collect(),
        SElem::U64 => gen_u64(n).iter().flat_map(|v| v.to_le_bytes()).collect(),
    }
}

/// BEVE compressed size (low two bits = log2 of the byte count)
fn beve_size(n: usize, out: &mut Vec<u8>) {
    if n < 1 << 6 {
        out.push((n as u8) << 2);
    } else if n < 1 << 14 {
        out.extend_from_slice(&(((n as u16) << 2) | 1).to_le_bytes());
    } else if n < 1 << 30 {
        out.extend_from_slice(&(((n as u32) << 2) | 2).to_le_bytes());
    } else {
        out.extend_from_slice(&(((n as u64) << 2) | 3).to_le_bytes());
    }
}

/// BEVE typed numeric array, written from the BEVE layout (tag = type 4 | class << 3 | code << 5).
pub fn typed_body(e: SElem, n: usize) -> Vec<u8> {
    let (class, code, _, _) = e.layout();
    let mut v = vec![4 | (class << 3) | (code << 5)];
    beve_size(n, &mut v);
    v.extend(le_payload(e, n));
    v
}

/// BEVE *aligned* typed array whose marker byte sits at absolute frame offset `base`:
/// 0x5C | numeric tag | SIZE | PADDING_LENGTH | padding zeros | data, where the padding is the
/// least count that puts the data on a multiple of align_of::<T>() *within the frame*
/// (documented by `MessageBuilder::body_aligned_typed_slice`: base = 48 + query length).
pub fn aligned_body(e: SElem, n: usize, base: usize) -> Vec<u8> {
    let (class, code, _, align) = e.layout();
    let mut v = vec![0x5c, 4 | (class << 3) | (code << 5)];
    beve_size(n, &mut v);
    let data_at = base + v.len() + 1;
    let pad = (align - data_at % align) % align;
    v.push(pad as u8);
    v.extend(std::iter::repeat(0u8).take(pad));
    v.extend(le_payload(e, n));
    v
}

/// The hand-written BEVE encoders above must agree with the `beve` crate itself (a third
/// party to the crate under test); a disagreement is an error of this harness.
pub fn validate_body_oracle() -> Result<u64, String> {
    let mut n_checked = 0;
    for e in SELEMS {
        for n in [0usize, 1, 2, 7, 63, 64, 1000, 16383, 16384] {
            let direct = with_slice!(e, n, |d| {
                let mut v = Vec::new();
                beve::to_writer_typed_slice(&mut v, &d).map_err(|x| x.to_string())?;
                v
            });
            if direct != typed_body(e, n) {
                return Err(format!("typed-array oracle disagrees with beve for {} x {n}", e.name()));
            }
            n_checked += 1;
            for base in 48..48 + 17 {
                let direct = with_slice!(e, n, |d| {
                    let mut v = Vec::new();
                    beve::write_aligned_typed_slice_at(&mut v, &d, base);
                    v
                });
                if direct != aligned_body(e, n, base) {
                    return Err(format!("aligned-array oracle disagrees with beve for {} x {n} at offset {base}", e.name()));
                }
                n_checked += 1;
            }
        }
    }
    Ok(n_checked)
}

// ------------------------------------------------------------------ forwarded messages

#[derive(Clone, Debug)]
pub enum FBody {
    Bytes(Vec<u8>),
    Json(Value),
    Beve(Value),
    Utf8(String),
    Typed(SElem, usize),
    Aligned(SElem, usize),
}

/// A prebuilt message handed to `AsyncClient::forward_message*`.
#[derive(Clone, Debug)]
pub struct Fwd {
    /// false: every field comes from `MessageBuilder`; true: the header fields are hand-set after `build()`
    pub hand: bool,
    /// version, notify, reserved, id, query_format, body_format, ec (lengths are filled consistently)
    pub h: Hdr,
    pub query: Vec<u8>,
    pub body: FBody,
}

fn fbody_bytes(b: &FBody, base: usize) -> Vec<u8> {
    match b {
        FBody::Bytes(x) => x.clone(),
        FBody::Json(v) => serde_json::to_vec(v).unwrap_or_default(),
        FBody::Beve(v) => beve::to_vec(v).unwrap_or_default(),
        FBody::Utf8(s) => s.as_bytes().to_vec(),
        FBody::Typed(e, n) => typed_body(*e, *n),
        FBody::Aligned(e, n) => aligned_body(*e, *n, base),
    }
}
fn fbody_json(b: &FBody) -> Value {
    match b {
        FBody::Bytes(x) => json!({"bytes": x.len()}),
        FBody::Json(v) => json!({"json": v}),
        FBody::Beve(v) => json!({"beve": v}),
        FBody::Utf8(s) => json!({"utf8": s.len()}),
        FBody::Typed(e, n) => json!({"typed": e.name(), "n": n}),
        FBody::Aligned(e, n) => json!({"aligned": e.name(), "n": n}),
    }
}

impl Fwd {
    fn build(&self) -> repe::Message {
        let mut b = repe::Message::builder().id(self.h.id).notify(self.h.notify == 1).query_bytes(self.query.clone()).query_format_code(self.h.query_format);
        b = match &self.body {
            FBody::Bytes(x) => b.body_bytes(x.clone()).body_format_code(self.h.body_format),
            FBody::Json(v) => b.body_json(v).expect("json body"),
            FBody::Beve(v) => b.body_beve(v).expect("beve body"),
            FBody::Utf8(s) => b.body_utf8(s),
            FBody::Typed(e, n) => with_slice!(*e, *n, |d| b.body_typed_slice(&d)),
            FBody::Aligned(e, n) => with_slice!(*e, *n, |d| b.body_aligned_typed_slice(&d)),
        };
        if !self.hand {
            b = b.error_code(repe::ErrorCode::try_from(self.h.ec).expect("builder-made messages use defined error codes"));
        }
        let mut m = b.build();
        if self.hand {
            m.header.version = self.h.version;
            m.header.notify = self.h.notify;
            m.header.reserved = self.h.reserved;
            m.header.id = self.h.id;
            m.header.query_format = self.h.query_format;
            m.header.body_format = self.h.body_format;
            m.header.ec = self.h.ec;
        }
        m
    }
    fn to_json(&self) -> Value {
        json!({"made": if self.hand { "hand-set header" } else { "builder" }, "version": self.h.version, "notify": self.h.notify, "reserved": self.h.reserved, "id": self.h.id.to_string(),
               "query_format": self.h.query_format, "body_format": self.h.body_format, "ec": self.h.ec, "query_len": self.query.len(), "body": fbody_json(&self.body)})
    }
}

// ------------------------------------------------------------------ the catalogue

#[derive(Clone, Debug)]
pub enum Call {
    WithFormats { notify: bool, timeout: bool, path: String, qf: u16, body: Option<Vec<u8>>, bf: u16 },
    Json { notify: bool, timeout: bool, path: String, v: Value },
    TypedJson { notify: bool, timeout: bool, path: String, v: Value },
    TypedBeve { notify: bool, timeout: bool, path: String, v: Value },
    TypedSlice { aligned: bool, timeout: bool, path: String, elem: SElem, n: usize },
    Message { path: String, timeout: bool },
    RegistryRead { path: String, typed: bool, timeout: bool },
    RegistryWrite { path: String, v: Value },
    RegistryCall { path: String, v: Value },
    Batch { timeout: bool, entries: Vec<(String, Value)> },
    Forward { timeout: bool, f: Fwd },
}

/// What the peer must receive for one frame of a call.
#[derive(Clone, Debug)]
struct Want {
    /// every header field but the lengths; `id` is only meaningful when `fixed_id`
    h: Hdr,
    fixed_id: bool,
    /// false: the body-format code is the helper's choice (taken from the reference route)
    fixed_bf: bool,
    q: Vec<u8>,
    b: Vec<u8>,
}
impl Want {
    fn req(notify: u8, qf: u16, bf: u16, q: &[u8], b: Vec<u8>) -> Want {
        Want { h: Hdr { spec: SPEC, version: 1, notify, query_format: qf, body_format: bf, ..Default::default() }, fixed_id: false, fixed_bf: true, q: q.to_vec(), b }
    }
    fn bytes(&self, id: u64, bf: u16) -> Vec<u8> {
        let mut h = self.h;
        if !self.fixed_id {
            h.id = id;
        }
        if !self.fixed_bf {
            h.body_format = bf;
        }
        Frame::new(h, &self.q, &self.b).to_bytes()
    }
    fn len(&self) -> usize {
        HEADER + self.q.len() + self.b.len()
    }
}

impl Call {
    pub fn route(&self) -> &'static str {
        match self {
            Call::WithFormats { notify: false, timeout: false, .. } => "call_with_formats",
            Call::WithFormats { notify: false, timeout: true, .. } => "call_with_formats_and_timeout",
            Call::WithFormats { notify: true, .. } => "notify_with_formats",
            Call::Json { notify: false, timeout: false, .. } => "call_json",
            Call::Json { notify: false, timeout: true, .. } => "call_json_with_timeout",
            Call::Json { notify: true, .. } => "notify_json",
            Call::TypedJson { notify: false, timeout: false, .. } => "call_typed_json",
            Call::TypedJson { notify: false, timeout: true, .. } => "call_typed_json_with_timeout",
            Call::TypedJson { notify: true, .. } => "notify_typed_json",
            Call::TypedBeve { notify: false, timeout: false, .. } => "call_typed_beve",
            Call::TypedBeve { notify: false, timeout: true, .. } => "call_typed_beve_with_timeout",
            Call::TypedBeve { notify: true, .. } => "notify_typed_beve",
            Call::TypedSlice { aligned: false, timeout: false, .. } => "call_typed_slice",
            Call::TypedSlice { aligned: false, timeout: true, .. } => "call_typed_slice_with_timeout",
            Call::TypedSlice { aligned: true, timeout: false, .. } => "call_typed_slice_aligned",
            Call::TypedSlice { aligned: true, timeout: true, .. } => "call_typed_slice_aligned_with_timeout",
            Call::Message { timeout: false, .. } => "call_message",
            Call::Message { timeout: true, .. } => "call_message_with_timeout",
            Call::RegistryRead { typed: false, timeout: false, .. } => "registry_read",
            Call::RegistryRead { typed: true, timeout: false, .. } => "registry_read_typed",
            Call::RegistryRead { typed: false, timeout: true, .. } => "registry_read_with_timeout",
            Call::RegistryRead { typed: true, timeout: true, .. } => "registry_read_typed_with_timeout",
            Call::RegistryWrite { .. } => "registry_write_json",
            Call::RegistryCall { .. } => "registry_call_json",
            Call::Batch { timeout: false, .. } => "batch_json",
            Call::Batch { timeout: true, .. } => "batch_json_with_timeout",
            Call::Forward { timeout: false, .. } => "forward_message",
            Call::Forward { timeout: true, .. } => "forward_message_with_timeout",
        }
    }
    /// no response is awaited by construction of the API
    fn is_notify(&self) -> bool {
        matches!(self, Call::WithFormats { notify: true, .. } | Call::Json { notify: true, .. } | Call::TypedJson { notify: true, .. } | Call::TypedBeve { notify: true, .. })
    }
    /// does client `ci` (index into CLIENTS) offer this API?
    fn offered_by(&self, ci: usize) -> bool {
        match self {
            Call::TypedSlice { .. } => ci != 2,
            Call::Forward { .. } => ci == 1,
            _ => true,
        }
    }
    fn n_frames(&self) -> usize {
        match self {
            Call::Batch { entries, .. } => entries.len(),
            _ => 1,
        }
    }
    pub fn to_json(&self) -> Value {
        match self {
            Call::WithFormats { notify, timeout, path, qf, body, bf } => json!({"api": self.route(), "notify": notify, "timeout": timeout, "path_len": path.len(), "path": short(path), "query_format": qf, "body_format": bf, "body": body.as_ref().map(|b| b.len())}),
            Call::Json { path, v, .. } | Call::TypedJson { path, v, .. } | Call::TypedBeve { path, v, .. } | Call::RegistryWrite { path, v } | Call::RegistryCall { path, v } => {
                json!({"api": self.route(), "path": short(path), "path_len": path.len(), "value": v})
            }
            Call::TypedSlice { path, elem, n, .. } => json!({"api": self.route(), "path": short(path), "path_len": path.len(), "elem": elem.name(), "n": n}),
            Call::Message { path, .. } | Call::RegistryRead { path, .. } => json!({"api": self.route(), "path": short(path), "path_len": path.len()}),
            Call::Batch { entries, .. } => json!({"api": self.route(), "entries": entries.len(), "first_path": entries.first().map(|e| short(&e.0))}),
            Call::Forward { f, .. } => json!({"api": self.route(), "message": f.to_json()}),
        }
    }
    /// The frames the peer must receive (one per batch entry).
    fn wants(&self) -> Vec<Want> {
        match self {
            Call::WithFormats { notify, path, qf, body, bf, .. } => vec![Want::req(*notify as u8, *qf, *bf, path.as_bytes(), body.clone().unwrap_or_default())],
            Call::Json { notify, path, v, .. } | Call::TypedJson { notify, path, v, .. } => vec![Want::req(*notify as u8, 1, frames::FMT_JSON, path.as_bytes(), serde_json::to_vec(v).unwrap_or_default())],
            Call::TypedBeve { notify, path, v, .. } => vec![Want::req(*notify as u8, 1, frames::FMT_BEVE, path.as_bytes(), beve::to_vec(v).unwrap_or_default())],
            Call::RegistryWrite { path, v } | Call::RegistryCall { path, v } => vec![Want::req(0, 1, frames::FMT_JSON, path.as_bytes(), serde_json::to_vec(v).unwrap_or_default())],
            Call::TypedSlice { aligned, path, elem, n, .. } => {
                let b = if *aligned { aligned_body(*elem, *n, HEADER + path.len()) } else { typed_body(*elem, *n) };
                vec![Want::req(0, 1, frames::FMT_BEVE, path.as_bytes(), b)]
            }
            // a body-less JSON-pointer read: the body format code is the helper's choice
            Call::Message { path, .. } | Call::RegistryRead { path, .. } => vec![Want { fixed_bf: false, ..Want::req(0, 1, 0, path.as_bytes(), Vec::new()) }],
            Call::Batch { entries, .. } => entries.iter().map(|(p, v)| Want::req(0, 1, frames::FMT_JSON, p.as_bytes(), serde_json::to_vec(v).unwrap_or_default())).collect(),
            Call::Forward { f, .. } => vec![Want { h: Hdr { spec: SPEC, ..f.h }, fixed_id: true, fixed_bf: true, q: f.query.clone(), b: fbody_bytes(&f.body, HEADER + f.query.len()) }],
        }
    }
    /// total bytes the call puts on the wire (orders the "alternating" sequence)
    fn weight(&self) -> usize {
        self.wants().iter().map(|w| w.len()).sum()
    }
    fn read_path(&self) -> Option<&str> {
        match self {
            Call::Message { path, .. } | Call::RegistryRead { path, .. } => Some(path),
            _ => None,
        }
    }
}

fn short(p: &str) -> String {
    if p.len() > 24 { format!("{}...", &p[..24]) } else { p.to_string() }
}

/// Sizes of the `batch_json*` calls; the last one exceeds the blocking client's worker cap (at most 64 threads).
pub fn batch_sizes(tier: Tier) -> Vec<usize> {
    tier.pick(vec![0, 1, 2, 5, 70], vec![0, 1, 2, 5, 70, 130])
}

fn batch_entries(n: usize) -> Vec<(String, Value)> {
    (0..n)
        .map(|i| {
            let tail = match i % 3 {
                0 => String::new(),
                1 => "/x~0y~1z".to_string(),
                _ => format!("/{}", "seg/".repeat(i % 7 * 5)),
            };
            let v = if n == 5 && i == 1 { json!({"i": i, "p": "y".repeat(9000)}) } else { json!({"i": i, "p": "x".repeat(i * 37 % 200), "n": [n, null, {"k": -1.5}]}) };
            (format!("/b{n}/{i}{tail}"), v)
        })
        .collect()
}

fn forward_calls(tier: Tier, v: &mut Vec<Call>) {
    // (1) messages made by the builder alone
    let bodies = [
        (FBody::Json(json!({"a": [1, 2, {"b": "c"}]})), frames::FMT_JSON),
        (FBody::Beve(json!({"k": [1.5, "s", null]})), frames::FMT_BEVE),
        (FBody::Utf8("plain text \u{e9}".to_string()), frames::FMT_UTF8),
        (FBody::Typed(SElem::F64, 7), frames::FMT_BEVE),
        (FBody::Aligned(SElem::F64, 7), frames::FMT_BEVE),
        (FBody::Bytes(Vec::new()), 0x5555),
        (FBody::Bytes((0..5000u32).map(|i| (i * 11 + 3) as u8).collect()), frames::FMT_UTF8),
    ];
    for notify in [0u8, 1] {
        for (body, bf) in &bodies {
            for id in [0u64, (1 << 40) + 7, u64::MAX] {
                for (qf, query) in [(1u16, b"/fw/d".to_vec()), (0, Vec::new()), (0x7788, vec![0u8, 0xff, 0x2f])] {
                    for ec in [0u32, 6] {
                        for timeout in [false, true] {
                            let h = Hdr { version: 1, notify, id, query_format: qf, body_format: *bf, ec, ..Default::default() };
                            v.push(Call::Forward { timeout, f: Fwd { hand: false, h, query: query.clone(), body: body.clone() } });
                        }
                    }
                }
            }
        }
    }
    // (2) hand-set header fields: single-field sweeps around two bases
    let base_a = Hdr { version: 1, notify: 0, reserved: 0, id: 1, query_format: 1, body_format: 2, ec: 0, ..Default::default() };
    let base_b = Hdr { version: 0x11, notify: 0x22, reserved: 0x3344_5566, id: 0x0102_0304_0506_0708, query_format: 0x7788, body_format: 0x99aa, ec: 0xbbcc_ddee, ..Default::default() };
    let mut hs: Vec<Hdr> = Vec::new();
    let mut push = |h: Hdr| {
        if !hs.contains(&h) {
            hs.push(h);
        }
    };
    for base in [base_a, base_b] {
        push(base);
        for x in [0u8, 1, 2, 0x7f, 0xff] {
            push(Hdr { version: x, ..base });
            push(Hdr { notify: x, ..base });
        }
        for x in [0u32, 1, 0xffff, 0x1_0000, 0x7fff_ffff, 0xffff_ffff] {
            push(Hdr { reserved: x, ..base });
            push(Hdr { ec: x, ..base });
        }
        for x in [0u64, 1, 1 << 8, 1 << 16, (1 << 32) - 1, 1 << 32, 1 << 63, u64::MAX, 0x0102_0304_0506_0708] {
            push(Hdr { id: x, ..base });
        }
        for x in [0u16, 1, 2, 3, 4, 0xff, 0x100, 0x7fff, 0xffff] {
            push(Hdr { query_format: x, ..base });
            push(Hdr { body_format: x, ..base });
        }
    }
    let big: Vec<u8> = (0..tier.pick(20_000u32, 200_000u32)).map(|i| (i * 5 + 9) as u8).collect();
    let payloads: [(Vec<u8>, FBody); 4] = [
        (Vec::new(), FBody::Bytes(Vec::new())),
        (b"/p".to_vec(), FBody::Bytes(vec![0xa5])),
        (format!("/{}", "hop/".repeat(60)).into_bytes(), FBody::Bytes(big)),
        (b"/al/igned".to_vec(), FBody::Aligned(SElem::U64, 3)),
    ];
    for h in &hs {
        for (query, body) in &payloads {
            for timeout in [false, true] {
                v.push(Call::Forward { timeout, f: Fwd { hand: true, h: *h, query: query.clone(), body: body.clone() } });
            }
        }
    }
}

pub fn calls(tier: Tier) -> Vec<Call> {
    let long = format!("/{}", "seg/".repeat(tier.pick(80, 1100)));
    let paths = ["/p".to_string(), "/a/b~1c/~0".to_string(), long];
    let bodies: Vec<Option<Vec<u8>>> = vec![
        None,
        Some(Vec::new()),
        Some(vec![0x5a]),
        Some((0..5000u32).map(|i| (i * 7 + 1) as u8).collect()),
        Some((0..tier.pick(70_000u32, 300_000u32)).map(|i| (i * 13 + 5) as u8).collect()),
    ];
    let slice_lens: &[usize] = tier.pick(&[0, 1, 7, 1000][..], &[0, 1, 7, 63, 64, 1000, 20_000][..]);
    let mut v = Vec::new();
    for path in &paths {
        for qf in [0u16, 1, 0x7788, 0xffff] {
            for bf in [0u16, 1, 2, 3, 0x5555, 0xffff] {
                for body in &bodies {
                    for (notify, timeout) in [(false, false), (true, false), (false, true)] {
                        if timeout && (qf != 1 || bf > 3) {
                            continue;
                        }
                        v.push(Call::WithFormats { notify, timeout, path: path.clone(), qf, body: body.clone(), bf });
                    }
                }
            }
        }
        for val in [json!(null), json!(0), json!({"a": [1, 2, {"b": "c"}]}), json!("x".repeat(9000))] {
            v.push(Call::Json { notify: false, timeout: false, path: path.clone(), v: val.clone() });
            v.push(Call::Json { notify: false, timeout: true, path: path.clone(), v: val.clone() });
            v.push(Call::Json { notify: true, timeout: false, path: path.clone(), v: val.clone() });
            v.push(Call::TypedJson { notify: false, timeout: false, path: path.clone(), v: val.clone() });
            v.push(Call::TypedJson { notify: false, timeout: true, path: path.clone(), v: val.clone() });
            v.push(Call::TypedJson { notify: true, timeout: false, path: path.clone(), v: val.clone() });
            v.push(Call::TypedBeve { notify: false, timeout: false, path: path.clone(), v: val.clone() });
            v.push(Call::TypedBeve { notify: false, timeout: true, path: path.clone(), v: val.clone() });
            v.push(Call::TypedBeve { notify: true, timeout: false, path: path.clone(), v: val.clone() });
            v.push(Call::RegistryWrite { path: path.clone(), v: val.clone() });
            v.push(Call::RegistryCall { path: path.clone(), v: val.clone() });
        }
        v.push(Call::Message { path: path.clone(), timeout: false });
        v.push(Call::Message { path: path.clone(), timeout: true });
        for (typed, timeout) in [(false, false), (true, false), (false, true), (true, true)] {
            v.push(Call::RegistryRead { path: path.clone(), typed, timeout });
        }
        for elem in SELEMS {
            for &n in slice_lens {
                for aligned in [false, true] {
                    for timeout in [false, true] {
                        v.push(Call::TypedSlice { aligned, timeout, path: path.clone(), elem, n });
                    }
                }
            }
        }
    }
    // aligned form: every residue of the payload offset (path lengths 1..=16)
    for plen in 1..=16usize {
        let path = format!("/{}", "q".repeat(plen - 1));
        for elem in SELEMS {
            for n in [0usize, 3] {
                for timeout in [false, true] {
                    v.push(Call::TypedSlice { aligned: true, timeout, path: path.clone(), elem, n });
                }
            }
        }
    }
    for n in batch_sizes(tier) {
        for timeout in [false, true] {
            v.push(Call::Batch { timeout, entries: batch_entries(n) });
        }
    }
    forward_calls(tier, &mut v);
    v
}

// ------------------------------------------------------------------ sequences (state carry)

pub fn sequence_names(tier: Tier) -> Vec<&'static str> {
    tier.pick(vec!["catalogue", "alternating-largest-smallest", "backwards-each-twice"], vec!["catalogue", "alternating-largest-smallest", "backwards-each-twice", "stride-permutation"])
}

pub fn sequence(name: &str, all: &[Call]) -> Vec<usize> {
    let n = all.len();
    match name {
        "catalogue" => (0..n).collect(),
        "alternating-largest-smallest" => {
            let mut idx: Vec<usize> = (0..n).collect();
            let w: Vec<usize> = all.iter().map(|c| c.weight()).collect();
            idx.sort_by_key(|&i| (w[i], i));
            let mut out = Vec::with_capacity(n);
            let (mut lo, mut hi) = (0usize, n);
            while lo < hi {
                hi -= 1;
                out.push(idx[hi]);
                if lo < hi {
                    out.push(idx[lo]);
                    lo += 1;
                }
            }
            out
        }
        "backwards-each-twice" => (0..n).rev().flat_map(|i| [i, i]).collect(),
        "stride-permutation" => {
            // i -> i * k mod n with k coprime to n, near n / golden ratio
            let gcd = |mut a: usize, mut b: usize| {
                while b != 0 {
                    (a, b) = (b, a % b);
                }
                a
            };
            let mut k = (n as f64 * 0.618) as usize | 1;
            while n > 1 && gcd(k, n) != 1 {
                k += 2;
            }
            (0..n).map(|i| i * k % n.max(1)).collect()
        }
        _ => Vec::new(),
    }
}

// ------------------------------------------------------------------ driving the clients

macro_rules! fire_slice {
    ($c:expr, $aligned:expr, $timeout:expr, $path:expr, $elem:expr, $n:expr, ($($aw:tt)*)) => {
        with_slice!($elem, $n, |d| match ($aligned, $timeout) {
            (false, false) => { let _: Result<Vec<u8>, _> = $c.call_typed_slice(&$path, &d)$($aw)*; }
            (false, true) => { let _: Result<Vec<u8>, _> = $c.call_typed_slice_with_timeout(&$path, &d, T)$($aw)*; }
            (true, false) => { let _: Result<Vec<u8>, _> = $c.call_typed_slice_aligned(&$path, &d)$($aw)*; }
            (true, true) => { let _: Result<Vec<u8>, _> = $c.call_typed_slice_aligned_with_timeout(&$path, &d, T)$($aw)*; }
        })
    };
}

/// The APIs all three clients share; `$other => $rest` handles the client-specific ones.
macro_rules! fire {
    ($c:expr, $call:expr, ($($aw:tt)*), $other:ident => $rest:expr) => {{
        let c = $c;
        match $call {
            Call::WithFormats { notify: false, timeout: false, path, qf, body, bf } => { let _ = c.call_with_formats(path, qf, body.as_deref(), bf)$($aw)*; }
            Call::WithFormats { notify: false, timeout: true, path, qf, body, bf } => { let _ = c.call_with_formats_and_timeout(path, qf, body.as_deref(), bf, T)$($aw)*; }
            Call::WithFormats { notify: true, path, qf, body, bf, .. } => { let _ = c.notify_with_formats(path, qf, body.as_deref(), bf)$($aw)*; }
            Call::Json { notify: false, timeout: false, path, v } => { let _ = c.call_json(path, &v)$($aw)*; }
            Call::Json { notify: false, timeout: true, path, v } => { let _ = c.call_json_with_timeout(path, &v, T)$($aw)*; }
            Call::Json { notify: true, path, v, .. } => { let _ = c.notify_json(path, &v)$($aw)*; }
            Call::TypedJson { notify: false, timeout: false, path, v } => { let _: Result<Value, _> = c.call_typed_json(path, &v)$($aw)*; }
            Call::TypedJson { notify: false, timeout: true, path, v } => { let _: Result<Value, _> = c.call_typed_json_with_timeout(path, &v, T)$($aw)*; }
            Call::TypedJson { notify: true, path, v, .. } => { let _ = c.notify_typed_json(path, &v)$($aw)*; }
            Call::TypedBeve { notify: false, timeout: false, path, v } => { let _: Result<Value, _> = c.call_typed_beve(path, &v)$($aw)*; }
            Call::TypedBeve { notify: false, timeout: true, path, v } => { let _: Result<Value, _> = c.call_typed_beve_with_timeout(path, &v, T)$($aw)*; }
            Call::TypedBeve { notify: true, path, v, .. } => { let _ = c.notify_typed_beve(path, &v)$($aw)*; }
            Call::Message { path, timeout: false } => { let _ = c.call_message(path)$($aw)*; }
            Call::Message { path, timeout: true } => { let _ = c.call_message_with_timeout(path, T)$($aw)*; }
            Call::RegistryRead { path, typed: false, timeout: false } => { let _ = c.registry_read(path)$($aw)*; }
            Call::RegistryRead { path, typed: true, timeout: false } => { let _: Result<Value, _> = c.registry_read_typed(path)$($aw)*; }
            Call::RegistryRead { path, typed: false, timeout: true } => { let _ = c.registry_read_with_timeout(path, T)$($aw)*; }
            Call::RegistryRead { path, typed: true, timeout: true } => { let _: Result<Value, _> = c.registry_read_typed_with_timeout(path, T)$($aw)*; }
            Call::RegistryWrite { path, v } => { let _ = c.registry_write_json(path, &v)$($aw)*; }
            Call::RegistryCall { path, v } => { let _ = c.registry_call_json(path, &v)$($aw)*; }
            Call::Batch { timeout: false, entries } => { let _ = c.batch_json(entries)$($aw)*; }
            Call::Batch { timeout: true, entries } => { let _ = c.batch_json_with_timeout(entries, T)$($aw)*; }
            $other => $rest,
        }
    }};
}

fn fire_blocking(c: &repe::Client, call: Call) {
    fire!(c, call, (), other => match other {
        Call::TypedSlice { aligned, timeout, path, elem, n } => fire_slice!(c, aligned, timeout, path, elem, n, ()),
        _ => unreachable!("not offered by Client"),
    })
}

async fn fire_async(c: &repe::AsyncClient, call: Call) {
    fire!(c, call, (.await), other => match other {
        Call::TypedSlice { aligned, timeout, path, elem, n } => fire_slice!(c, aligned, timeout, path, elem, n, (.await)),
        Call::Forward { timeout: false, f } => {
            let m = f.build();
            let _ = c.forward_message(&m).await;
        }
        Call::Forward { timeout: true, f } => {
            let m = f.build();
            let _ = c.forward_message_with_timeout(&m, T).await;
        }
        _ => unreachable!("not offered by AsyncClient"),
    })
}

async fn fire_ws(c: &repe::WebSocketClient, call: Call) {
    fire!(c, call, (.await), _other => unreachable!("not offered by WebSocketClient"))
}

/// The public functions of the three client types that do NOT put a request on the wire.
const NOT_EMITTING: [&str; 7] = ["connect", "connect_with_limits", "set_write_timeout", "limits", "subscribe_notifies", "unsubscribe_notifies", "verif_pending_len"];
const CLIENT_SOURCES: [&str; 3] = ["src/client.rs", "src/async_client.rs", "src/websocket_client.rs"];

/// `pub fn` / `pub async fn` names declared in the client's source file.
fn public_fns(src: &str) -> Vec<String> {
    let mut out = Vec::new();
    for line in src.lines() {
        let t = line.trim_start();
        let rest = t.strip_prefix("pub async fn ").or_else(|| t.strip_prefix("pub fn "));
        if let Some(r) = rest {
            let name: String = r.chars().take_while(|c| c.is_alphanumeric() || *c == '_').collect();
            if !name.is_empty() && !out.contains(&name) {
                out.push(name);
            }
        }
    }
    out
}

fn reply_bytes(id: u64) -> Vec<u8> {
    let h = Hdr { version: 1, id, query_format: 1, body_format: frames::FMT_JSON, ..Default::default() };
    Frame::new(h, b"/r", b"null").to_bytes()
}

/// What one client emitted for one call of a sequence.
#[derive(Default, Clone)]
pub struct Capt {
    pub frames: Vec<Vec<u8>>,
    /// bytes beyond the last whole frame
    pub trailing: usize,
    pub finished: bool,
}

/// Split whole frames off the front of `buf` by the lengths their headers declare (an
/// inconsistent header is reported by the comparison; bounded).
fn split_lenient(buf: &mut Vec<u8>) -> Vec<Vec<u8>> {
    let mut out = Vec::new();
    loop {
        let Some(hd) = Hdr::decode_raw(buf) else { return out };
        let total = HEADER + (hd.query_length.min(1 << 24) + hd.body_length.min(1 << 24)) as usize;
        if buf.len() < total {
            return out;
        }
        out.push(buf.drain(..total).collect());
    }
}

fn frame_id(f: &[u8]) -> u64 {
    Hdr::decode_raw(f).map(|h| h.id).unwrap_or(0)
}

/// Frames emitted by a tokio client for each call of the sequence (None: API not offered).
async fn capture_tokio(kind: Kind, all: &[Call], seq: &[usize]) -> Result<Vec<Option<Capt>>, String> {
    let ci = if kind == Kind::Async { 1 } else { 2 };
    let Conn { cli, mut peer, .. } = clients::connect(kind).await;
    let mut out = Vec::with_capacity(seq.len());
    let mut inbuf: Vec<u8> = Vec::new();
    for &i in seq {
        let call = &all[i];
        if !call.offered_by(ci) {
            out.push(None);
            continue;
        }
        let call2 = call.clone();
        let h = match cli.clone() {
            Cli::Async(c) => tokio::spawn(async move { fire_async(&c, call2).await }),
            Cli::Ws(c) => tokio::spawn(async move { fire_ws(&c, call2).await }),
        };
        let mut cap = Capt::default();
        loop {
            memstream::settle().await;
            let new: Vec<Vec<u8>> = match &mut peer {
                Peer::Raw { ctl, .. } => {
                    inbuf.extend(ctl.a_to_b.take());
                    split_lenient(&mut inbuf)
                }
                Peer::Ws { ws, .. } => {
                    let mut v = Vec::new();
                    loop {
                        match tokio::time::timeout(Duration::from_nanos(1), ws.next()).await {
                            Err(_) => break,
                            Ok(Some(Ok(WsMessage::Binary(b)))) => v.push(b.to_vec()),
                            Ok(Some(Ok(WsMessage::Ping(_) | WsMessage::Pong(_)))) => continue,
                            other => return Err(format!("{}: websocket peer failed at {}: {other:?}", kind.name(), call.to_json())),
                        }
                    }
                    v
                }
            };
            if new.is_empty() {
                break;
            }
            for f in new {
                // a forwarded message is answered only if the client is still waiting (notify = 1 is not awaited)
                let answer = match call {
                    Call::Forward { .. } => !h.is_finished(),
                    c => !c.is_notify(),
                };
                if answer && f.len() >= HEADER {
                    peer.send_bytes(&reply_bytes(frame_id(&f))).await;
                }
                cap.frames.push(f);
            }
        }
        cap.trailing = inbuf.len();
        inbuf.clear();
        match tokio::time::timeout(T, h).await {
            Ok(Ok(())) => cap.finished = true,
            Ok(Err(e)) if e.is_panic() => return Err(format!("{}: the caller panicked for {}", kind.name(), call.to_json())),
            _ => cap.finished = false,
        }
        out.push(Some(cap));
    }
    Ok(out)
}

/// The blocking client's bound on batch worker threads (documented: at most 64, four per core).
fn blocking_worker_cap() -> usize {
    std::thread::available_parallelism().map(|n| n.get()).unwrap_or(1).saturating_mul(4).clamp(1, 64)
}

#[derive(Default, Clone)]
pub struct BlockingStats {
    /// largest number of request frames of one batch read before the first reply was sent
    pub batch_max_unanswered: usize,
    /// a batch stopped emitting before the predicted number of workers had written (replies released by the watchdog)
    pub batch_hold_released_by_watchdog: u64,
}

fn capture_blocking(all: &[Call], seq: &[usize]) -> Result<(Vec<Option<Capt>>, BlockingStats), String> {
    let listener = std::net::TcpListener::bind("127.0.0.1:0").map_err(|e| e.to_string())?;
    let addr = listener.local_addr().map_err(|e| e.to_string())?;
    let client = repe::Client::connect(addr).map_err(|e| format!("Client::connect: {e}"))?;
    let (mut s, _) = listener.accept().map_err(|e| e.to_string())?;
    s.set_nodelay(true).ok();
    let slice = Duration::from_millis(50);
    s.set_read_timeout(Some(slice)).ok();
    let mut st = BlockingStats::default();
    let mut out = Vec::with_capacity(seq.len());
    let mut buf: Vec<u8> = Vec::new();
    let mut tmp = vec![0u8; 1 << 16];
    for &i in seq {
        let call = &all[i];
        if !call.offered_by(0) {
            out.push(None);
            continue;
        }
        let (c, call2) = (client.clone(), call.clone());
        let (tx, rx) = std::sync::mpsc::channel::<bool>();
        std::thread::spawn(move || {
            let ok = std::panic::catch_unwind(std::panic::AssertUnwindSafe(|| fire_blocking(&c, call2))).is_ok();
            let _ = tx.send(ok);
        });
        let n = call.n_frames();
        let answer = !call.is_notify();
        // a batch: the replies are held back until as many frames arrived as the client has workers
        let hold = if matches!(call, Call::Batch { .. }) && n > 1 { n.min(blocking_worker_cap()) } else { 0 };
        let mut held: Vec<u64> = Vec::new();
        let mut cap = Capt::default();
        let mut done: Option<bool> = None;
        let mut idle_ms = 0u64;
        while cap.frames.len() < n {
            for f in split_lenient(&mut buf) {
                let id = frame_id(&f);
                cap.frames.push(f);
                if !answer {
                    continue;
                }
                if cap.frames.len() <= hold {
                    held.push(id);
                    if cap.frames.len() == hold {
                        st.batch_max_unanswered = st.batch_max_unanswered.max(held.len());
                        for id in held.drain(..) {
                            s.write_all(&reply_bytes(id)).map_err(|e| e.to_string())?;
                        }
                    }
                } else {
                    s.write_all(&reply_bytes(id)).map_err(|e| e.to_string())?;
                }
            }
            if cap.frames.len() >= n {
                break;
            }
            match s.read(&mut tmp) {
                Ok(0) => return Err(format!("Client closed the connection at {}", call.to_json())),
                Ok(k) => {
                    buf.extend_from_slice(&tmp[..k]);
                    idle_ms = 0;
                }
                Err(e) if matches!(e.kind(), std::io::ErrorKind::WouldBlock | std::io::ErrorKind::TimedOut) => {
                    idle_ms += 50;
                    if done.is_some() {
                        // the caller returned (everything it wrote was flushed before that): after a
                        // further second of silence the missing frames were never sent
                        if idle_ms >= 1_000 {
                            break;
                        }
                        continue;
                    }
                    if let Ok(ok) = rx.try_recv() {
                        done = Some(ok);
                        idle_ms = 0;
                        continue;
                    }
                    if !held.is_empty() && idle_ms >= 5_000 {
                        st.batch_hold_released_by_watchdog += 1;
                        for id in held.drain(..) {
                            s.write_all(&reply_bytes(id)).map_err(|e| e.to_string())?;
                        }
                    }
                    if idle_ms >= 30_000 {
                        return Err(format!("Client: no progress for 30 s at {} ({} of {n} frames)", call.to_json(), cap.frames.len()));
                    }
                }
                Err(e) => return Err(format!("Client: read failed at {}: {e}", call.to_json())),
            }
        }
        for id in held.drain(..) {
            s.write_all(&reply_bytes(id)).map_err(|e| e.to_string())?;
        }
        let ok = match done {
            Some(ok) => Some(ok),
            None => rx.recv_timeout(Duration::from_secs(30)).ok(),
        };
        match ok {
            Some(true) => cap.finished = true,
            Some(false) => return Err(format!("Client: the caller panicked for {}", call.to_json())),
            None => cap.finished = false,
        }
        // anything written beyond the expected frames is in the socket by now (loopback)
        if s.set_nonblocking(true).is_ok() {
            while let Ok(k) = s.read(&mut tmp) {
                if k == 0 {
                    break;
                }
                buf.extend_from_slice(&tmp[..k]);
            }
            s.set_nonblocking(false).ok();
            s.set_read_timeout(Some(slice)).ok();
        }
        cap.frames.extend(split_lenient(&mut buf));
        cap.trailing = buf.len();
        buf.clear();
        out.push(Some(cap));
    }
    Ok((out, st))
}

fn field_diff(got: &[u8], want: &[u8]) -> String {
    let regions: [(&str, usize, usize); 11] = [
        ("length", 0, 8), ("spec", 8, 10), ("version", 10, 11), ("notify", 11, 12), ("reserved", 12, 16), ("id", 16, 24),
        ("query_length", 24, 32), ("body_length", 32, 40), ("query_format", 40, 42), ("body_format", 42, 44), ("ec", 44, 48),
    ];
    for (n, a, b) in regions {
        if got.len() >= b && want.len() >= b && got[a..b] != want[a..b] {
            return n.to_string();
        }
    }
    if got.len() != want.len() { "payload-length".into() } else { "payload".into() }
}

pub struct ClientsOut {
    pub bad: Vec<(Bad, Value)>,
    pub machinery: Option<String>,
    /// call executions planned: sum over sequences and clients of the calls the client offers
    pub planned: u64,
    /// call executions whose emission was captured
    pub calls: u64,
    pub frames_compared: u64,
    /// "Client::api" -> executions
    pub per_route: BTreeMap<String, u64>,
    pub catalogue: u64,
    pub bound: Value,
    pub nonvacuity: Value,
}

pub const CLIENTS: [&str; 3] = ["Client", "AsyncClient", "WebSocketClient"];

type Caps = [Vec<Option<Capt>>; 3];

fn capture_all(all: &[Call], seq: &[usize]) -> Result<(Caps, BlockingStats), String> {
    std::thread::scope(|sc| {
        let b = sc.spawn(|| capture_blocking(all, seq));
        let a = sc.spawn(|| memstream::run_paused(capture_tokio(Kind::Async, all, seq)));
        let w = sc.spawn(|| memstream::run_paused(capture_tokio(Kind::Ws, all, seq)));
        let b = b.join().unwrap_or_else(|_| Err("blocking capture panicked".into()));
        let a = a.join().unwrap_or_else(|_| Err("AsyncClient capture panicked".into()));
        let w = w.join().unwrap_or_else(|_| Err("WebSocketClient capture panicked".into()));
        match (b, a, w) {
            (Ok((b, st)), Ok(a), Ok(w)) => Ok(([b, a, w], st)),
            (b, a, w) => Err([b.err(), a.err(), w.err()].into_iter().flatten().collect::<Vec<_>>().join("; ")),
        }
    })
}

#[derive(Default)]
struct Cmp {
    bad: Vec<(Bad, Value)>,
    seen_keys: BTreeSet<String>,
    frames_compared: u64,
    calls: u64,
    per_route: BTreeMap<String, u64>,
    unfinished: u64,
    // measured non-vacuity
    batch_frames: u64,
    batch_largest: usize,
    forward_frames: u64,
    forward_unknown_formats: u64,
    forward_reserved_bits: u64,
    forward_not_awaited: u64,
    forward_odd_notify: u64,
    forward_foreign_version: u64,
    forward_error_code: u64,
    aligned_paddings: BTreeMap<String, BTreeSet<u8>>,
    slice_frames: u64,
    free_bf_frames: u64,
    reference_body_formats: BTreeSet<u16>,
    adjacent_route_pairs: BTreeSet<(&'static str, &'static str)>,
    shrinking_steps: u64,
    growing_steps: u64,
    repeats: u64,
    largest_frame: usize,
}

impl Cmp {
    fn report(&mut self, key: String, what: String, case: &Value) {
        if self.seen_keys.insert(key.clone()) {
            self.bad.push((Bad { key, what }, case.clone()));
        }
    }

    /// Decide one sequence: every captured call against the oracle (a) and across the clients (b).
    fn sequence(&mut self, all: &[Call], wants_all: &[Vec<Want>], name: &str, seq: &[usize], caps: &Caps) {
        let weights: Vec<usize> = wants_all.iter().map(|ws| ws.iter().map(|w| w.len()).sum()).collect();
        // the body-format code a body-less read carries: the one Client::call_message emits for that path
        let mut ref_bf: BTreeMap<&str, u16> = BTreeMap::new();
        for (p, &i) in seq.iter().enumerate() {
            if let Call::Message { path, timeout: false } = &all[i] {
                if let Some(Some(c)) = caps[0].get(p) {
                    if let Some(h) = c.frames.first().and_then(|f| Hdr::decode_raw(f)) {
                        ref_bf.entry(path.as_str()).or_insert(h.body_format);
                        self.reference_body_formats.insert(h.body_format);
                    }
                }
            }
        }
        let mut prev: Option<usize> = None;
        for (p, &i) in seq.iter().enumerate() {
            let call = &all[i];
            let wants = &wants_all[i];
            if let Some(pi) = prev {
                self.adjacent_route_pairs.insert((all[pi].route(), call.route()));
                let (a, b) = (weights[pi], weights[i]);
                if pi == i {
                    self.repeats += 1;
                } else if b < a {
                    self.shrinking_steps += 1;
                } else if b > a {
                    self.growing_steps += 1;
                }
            }
            prev = Some(i);
            let case = json!({"block": "clients", "call": call.to_json(), "index": i, "sequence": name, "position": p});
            let bf_free = call.read_path().and_then(|path| ref_bf.get(path).copied());
            // per client: the emitted frame matched with each wanted frame
            let mut matched: [Vec<Option<Vec<u8>>>; 3] = Default::default();
            for ci in 0..3 {
                let Some(Some(cap)) = caps[ci].get(p) else { continue };
                self.calls += 1;
                *self.per_route.entry(format!("{}::{}", CLIENTS[ci], call.route())).or_insert(0) += 1;
                if !cap.finished {
                    self.unfinished += 1;
                }
                let route = call.route();
                let who = CLIENTS[ci];
                // match frames with entries by path (a batch may emit in any order)
                let mut used = vec![false; cap.frames.len()];
                let mut m: Vec<Option<Vec<u8>>> = Vec::with_capacity(wants.len());
                for w in wants.iter() {
                    let hit = if wants.len() == 1 {
                        if cap.frames.is_empty() { None } else { Some(0) }
                    } else {
                        (0..cap.frames.len()).find(|&k| !used[k] && cap.frames[k].len() >= HEADER + w.q.len() && cap.frames[k][HEADER..HEADER + w.q.len()] == w.q[..] && Hdr::decode_raw(&cap.frames[k]).map(|h| h.query_length) == Some(w.q.len() as u64))
                    };
                    match hit {
                        Some(k) => {
                            used[k] = true;
                            m.push(Some(cap.frames[k].clone()));
                        }
                        None => m.push(None),
                    }
                }
                let missing = m.iter().filter(|x| x.is_none()).count();
                let surplus = used.iter().filter(|u| !**u).count();
                if missing > 0 || surplus > 0 || cap.trailing > 0 {
                    self.report(
                        format!("C01:client-emit:{who}:{route}:frame-count"),
                        format!(
                            "{who}::{route} put {} whole frames and {} further bytes on the wire for {} logical requests ({missing} requests without a frame carrying their path, {surplus} frames matching no request) for {}",
                            cap.frames.len(),
                            cap.trailing,
                            wants.len(),
                            call.to_json()
                        ),
                        &case,
                    );
                }
                // (a) each frame against the layout oracle
                for (w, got) in wants.iter().zip(&m) {
                    let Some(got) = got else { continue };
                    let gh = Hdr::decode_raw(got).unwrap_or_default();
                    let bf = if w.fixed_bf { w.h.body_format } else { bf_free.unwrap_or(gh.body_format) };
                    let want = w.bytes(gh.id, bf);
                    self.frames_compared += 1;
                    self.largest_frame = self.largest_frame.max(got.len());
                    if *got != want {
                        let f = field_diff(got, &want);
                        self.report(
                            format!("C01:client-emit:{who}:{route}:{f}"),
                            format!("{who}::{route} emitted a frame that differs from the layout oracle in `{f}` for {} (sequence {name}, position {p}, after {})", call.to_json(), if p == 0 { "nothing".to_string() } else { all[seq[p - 1]].route().to_string() }),
                            &case,
                        );
                    }
                    match call {
                        Call::Batch { .. } => self.batch_frames += 1,
                        Call::Forward { f, .. } => {
                            self.forward_frames += 1;
                            self.forward_unknown_formats += (f.h.query_format > 1 || f.h.body_format > 3) as u64;
                            self.forward_reserved_bits += (f.h.reserved != 0) as u64;
                            self.forward_not_awaited += (f.h.notify == 1) as u64;
                            self.forward_odd_notify += (f.h.notify > 1) as u64;
                            self.forward_foreign_version += (f.h.version != 1) as u64;
                            self.forward_error_code += (f.h.ec != 0) as u64;
                        }
                        Call::TypedSlice { aligned, elem, .. } => {
                            self.slice_frames += 1;
                            if *aligned {
                                // PADDING_LENGTH byte of the emitted body: marker, tag, SIZE (1 << low two bits), count
                                let b0 = HEADER + w.q.len();
                                if let Some(sz) = got.get(b0 + 2) {
                                    if let Some(pad) = got.get(b0 + 2 + (1usize << (sz & 3))) {
                                        self.aligned_paddings.entry(elem.name().to_string()).or_default().insert(*pad);
                                    }
                                }
                            }
                        }
                        Call::Message { .. } | Call::RegistryRead { .. } => self.free_bf_frames += 1,
                        _ => {}
                    }
                }
                // ids of one batch: pairwise distinct
                if wants.len() > 1 {
                    self.batch_largest = self.batch_largest.max(wants.len());
                    let ids: Vec<u64> = cap.frames.iter().map(|f| frame_id(f)).collect();
                    let distinct: BTreeSet<u64> = ids.iter().copied().collect();
                    if distinct.len() != ids.len() {
                        self.report(
                            format!("C01:client-emit:{who}:{route}:duplicate-id"),
                            format!("{who}::{route} stamped the same request id on {} of the {} frames of one batch for {}", ids.len() - distinct.len(), ids.len(), call.to_json()),
                            &case,
                        );
                    }
                }
                matched[ci] = m;
            }
            // (b) one encoding across the clients that offer the API (ids are per client)
            let norm = |b: &Vec<u8>| {
                let mut v = b.clone();
                if v.len() >= 24 && !matches!(call, Call::Forward { .. }) {
                    v[16..24].fill(0);
                }
                v
            };
            let Some(c0) = (0..3).find(|&ci| !matched[ci].is_empty()) else { continue };
            for ci in c0 + 1..3 {
                if matched[ci].is_empty() {
                    continue;
                }
                for (wi, (x0, x)) in matched[c0].iter().zip(&matched[ci]).enumerate() {
                    let (Some(x0), Some(x)) = (x0, x) else { continue };
                    self.frames_compared += 1;
                    let (n0, n) = (norm(x0), norm(x));
                    if n != n0 {
                        let f = field_diff(&n, &n0);
                        self.report(
                            format!("C01:client-emit:one-encoding:{}:{f}", call.route()),
                            format!("{}::{r} and {}::{r} emit different bytes (`{f}`) for the same request {} (frame {wi}, sequence {name}, position {p})", CLIENTS[ci], CLIENTS[c0], call.to_json(), r = call.route()),
                            &case,
                        );
                    }
                }
            }
        }
    }
}

fn planned(all: &[Call], seqs: &[(String, Vec<usize>)]) -> u64 {
    seqs.iter().map(|(_, s)| s.iter().map(|&i| (0..3).filter(|&ci| all[i].offered_by(ci)).count() as u64).sum::<u64>()).sum()
}

/// Run the given sequences over `all`; every sequence on fresh connections, the three clients in parallel.
pub fn run_sequences(all: &[Call], seqs: &[(String, Vec<usize>)]) -> ClientsOut {
    let mut out = ClientsOut {
        bad: Vec::new(),
        machinery: None,
        planned: planned(all, seqs),
        calls: 0,
        frames_compared: 0,
        per_route: Default::default(),
        catalogue: all.len() as u64,
        bound: Value::Null,
        nonvacuity: Value::Null,
    };
    let results: Vec<Result<(Caps, BlockingStats), String>> = std::thread::scope(|sc| {
        let hs: Vec<_> = seqs.iter().map(|(_, seq)| sc.spawn(move || capture_all(all, seq))).collect();
        hs.into_iter().map(|h| h.join().unwrap_or_else(|_| Err("capture thread panicked".into()))).collect()
    });
    let mut cmp = Cmp::default();
    let wants_all: Vec<Vec<Want>> = all.iter().map(|c| c.wants()).collect();
    let mut bst = BlockingStats::default();
    let mut errs = Vec::new();
    for ((name, seq), r) in seqs.iter().zip(results) {
        match r {
            Ok((caps, st)) => {
                bst.batch_max_unanswered = bst.batch_max_unanswered.max(st.batch_max_unanswered);
                bst.batch_hold_released_by_watchdog += st.batch_hold_released_by_watchdog;
                cmp.sequence(all, &wants_all, name, seq, &caps);
            }
            Err(e) => errs.push(format!("sequence {name}: {e}")),
        }
    }
    if !errs.is_empty() {
        out.machinery = Some(errs.join("; "));
        return out;
    }
    if cmp.unfinished > 0 && cmp.bad.is_empty() {
        out.machinery = Some(format!("{} calls did not return although their frames match", cmp.unfinished));
    }
    out.calls = cmp.calls;
    out.frames_compared = cmp.frames_compared;
    out.per_route = cmp.per_route.clone();
    out.nonvacuity = json!({
        "call_executions": cmp.calls,
        "frames_compared": cmp.frames_compared,
        "executions_per_client_api": cmp.per_route,
        "distinct_client_apis_executed": cmp.per_route.len(),
        "sequences": seqs.iter().map(|(n, s)| json!({"name": n, "calls": s.len()})).collect::<Vec<_>>(),
        "state_carry": {
            "distinct_adjacent_api_pairs": cmp.adjacent_route_pairs.len(),
            "steps_to_a_smaller_request": cmp.shrinking_steps,
            "steps_to_a_larger_request": cmp.growing_steps,
            "immediate_repeats": cmp.repeats,
            "largest_frame_bytes": cmp.largest_frame,
        },
        "batch": {
            "frames": cmp.batch_frames,
            "largest_batch": cmp.batch_largest,
            "blocking_client_worker_cap": blocking_worker_cap(),
            "blocking_client_most_frames_read_before_first_reply": bst.batch_max_unanswered,
            "blocking_client_holds_released_by_watchdog": bst.batch_hold_released_by_watchdog,
        },
        "forward": {
            "frames": cmp.forward_frames,
            "unknown_format_codes": cmp.forward_unknown_formats,
            "reserved_bits_set": cmp.forward_reserved_bits,
            "notify_1_not_awaited": cmp.forward_not_awaited,
            "notify_other_than_0_1": cmp.forward_odd_notify,
            "version_other_than_1": cmp.forward_foreign_version,
            "error_code_set": cmp.forward_error_code,
        },
        "numeric_slices": {
            "frames": cmp.slice_frames,
            "padding_lengths_emitted_per_element_type": cmp.aligned_paddings,
        },
        "body_less_reads": {"frames": cmp.free_bf_frames, "reference_body_format_codes": cmp.reference_body_formats},
        "calls_that_did_not_return": cmp.unfinished,
    });
    out.bad = cmp.bad;
    out
}

/// Every public function of the three client types is either driven by the catalogue or known not to emit.
fn api_census(repo: &std::path::Path, per_route: &BTreeMap<String, u64>) -> Result<Value, String> {
    let mut census = serde_json::Map::new();
    for (ci, file) in CLIENT_SOURCES.iter().enumerate() {
        let src = std::fs::read_to_string(repo.join(file)).map_err(|e| format!("cannot read {}: {e}", repo.join(file).display()))?;
        let fns = public_fns(&src);
        let mut emitting = Vec::new();
        for f in &fns {
            if NOT_EMITTING.contains(&f.as_str()) {
                continue;
            }
            if per_route.get(&format!("{}::{f}", CLIENTS[ci])).copied().unwrap_or(0) == 0 {
                return Err(format!("public API {}::{f} ({file}) is not driven by the catalogue", CLIENTS[ci]));
            }
            emitting.push(f.clone());
        }
        if emitting.is_empty() {
            return Err(format!("no public request API found in {file}"));
        }
        census.insert(CLIENTS[ci].to_string(), json!({"public_fns_in_source": fns.len(), "request_emitting_driven": emitting.len(), "names": emitting}));
    }
    Ok(Value::Object(census))
}

pub fn run_all(tier: Tier, repo: &std::path::Path) -> ClientsOut {
    let oracle_checks = match validate_body_oracle() {
        Ok(n) => n,
        Err(e) => {
            return ClientsOut { bad: Vec::new(), machinery: Some(e), planned: 0, calls: 0, frames_compared: 0, per_route: Default::default(), catalogue: 0, bound: Value::Null, nonvacuity: Value::Null };
        }
    };
    let all = calls(tier);
    let seqs: Vec<(String, Vec<usize>)> = sequence_names(tier).into_iter().map(|n| (n.to_string(), sequence(n, &all))).collect();
    let mut out = run_sequences(&all, &seqs);
    if out.machinery.is_some() {
        return out;
    }
    let census = match api_census(repo, &out.per_route) {
        Ok(c) => c,
        Err(e) => {
            if out.bad.is_empty() {
                out.machinery = Some(e);
            }
            Value::Null
        }
    };
    if out.bad.is_empty() && out.machinery.is_none() {
        // vacuity: the interesting branches were really taken
        let nv = &out.nonvacuity;
        let need = [
            ("batch frames", nv["batch"]["frames"].as_u64()),
            ("batches beyond the blocking client's worker cap", Some((nv["batch"]["largest_batch"].as_u64() > nv["batch"]["blocking_client_worker_cap"].as_u64()) as u64)),
            ("forwarded frames with reserved bits", nv["forward"]["reserved_bits_set"].as_u64()),
            ("forwarded frames with unknown format codes", nv["forward"]["unknown_format_codes"].as_u64()),
            ("forwarded notifies", nv["forward"]["notify_1_not_awaited"].as_u64()),
            ("numeric-slice frames", nv["numeric_slices"]["frames"].as_u64()),
            ("steps to a smaller request", nv["state_carry"]["steps_to_a_smaller_request"].as_u64()),
            ("immediate repeats", nv["state_carry"]["immediate_repeats"].as_u64()),
        ];
        for (what, n) in need {
            if n.unwrap_or(0) == 0 {
                out.machinery = Some(format!("vacuous exploration: no {what}"));
            }
        }
        let pads = nv["numeric_slices"]["padding_lengths_emitted_per_element_type"]["f64"].as_array().map(|a| a.len()).unwrap_or(0);
        if pads < 8 {
            out.machinery = Some(format!("vacuous exploration: only {pads} of the 8 padding lengths of an aligned f64 body were emitted"));
        }
    }
    out.bound = json!({
        "clients": CLIENTS,
        "catalogue_of_logical_requests": all.len(),
        "sequences": seqs.iter().map(|(n, _)| n.clone()).collect::<Vec<_>>(),
        "apis": census,
        "body_oracle_cross_checks_against_beve": oracle_checks,
        "batch_sizes": batch_sizes(tier),
        "numeric_slice_elements": SELEMS.iter().map(|e| e.name()).collect::<Vec<_>>(),
        "what": "every request-emitting public API of Client / AsyncClient / WebSocketClient (census of `pub fn` in the three source files) on one long-lived connection per client and sequence. \
with_formats routes: paths {short, escaped, long} x query format codes {0,1,0x7788,0xffff} x body format codes {0,1,2,3,0x5555,0xffff} x bodies {none, empty, 1 B, 5000 B, 70 000 B (thorough 300 000 B)}; \
JSON/BEVE/registry helpers (each with its *_with_timeout twin where one exists; notify_* have none): four JSON values x 3 paths; body-less reads: call_message[_with_timeout], registry_read[_typed][_with_timeout]; \
call_typed_slice[_aligned][_with_timeout] (Client, AsyncClient): elements {u8,i16,f32,f64,u64} x lengths {0,1,7,1000} (thorough + 63,64,20000) x 3 paths, and the aligned form over path lengths 1..=16 x lengths {0,3}; \
batch_json[_with_timeout]: N entries with pairwise distinct paths, frames matched by path, ids pairwise distinct; \
AsyncClient::forward_message[_with_timeout]: builder-made messages {notify 0/1} x 7 body kinds x 3 ids x 3 query/format pairs x 2 error codes, and messages with hand-set header fields (single-field sweeps of version, notify, reserved, id, query_format, body_format, ec around 2 bases) x 4 payloads; \
the whole catalogue is issued in every listed sequence (state carry)",
    });
    out
}

pub fn replay(case: &Value) -> Result<Vec<Bad>, String> {
    // the recorded index names the call in the quick catalogue, else in the thorough one
    let i = case["index"].as_u64().ok_or("index")? as usize;
    validate_body_oracle()?;
    for tier in [Tier::Quick, Tier::Thorough] {
        let all = calls(tier);
        if let Some(c) = all.get(i) {
            if c.to_json() == case["call"] {
                // alone first, then with everything that preceded it on the connection
                let alone = run_sequences(&all, &[("replay-alone".to_string(), vec![i])]);
                if let Some(m) = alone.machinery {
                    return Err(format!("machinery: {m}"));
                }
                if !alone.bad.is_empty() {
                    return Ok(alone.bad.into_iter().map(|(b, _)| b).collect());
                }
                let name = case["sequence"].as_str().unwrap_or("catalogue");
                let pos = case["position"].as_u64().unwrap_or(0) as usize;
                let mut seq = sequence(name, &all);
                seq.truncate(pos + 1);
                let out = run_sequences(&all, &[(name.to_string(), seq)]);
                if let Some(m) = out.machinery {
                    return Err(format!("machinery: {m}"));
                }
                return Ok(out.bad.into_iter().map(|(b, _)| b).collect());
            }
        }
    }
    Err("recorded call not found in the catalogue".into())
}
